#!/usr/bin/env python3
"""Regenerates /verif/MANIFEST.json from the table below (single source of truth)."""
import json
props=[json.loads(l)['id'] for l in open('/verif/properties.jsonl')]
TB="go/types + go/ssa (x/tools v0.29.0) and the checker's abstract domain; stated entry assumptions in evidence.assumptions"
CHECKS={
 "C02":("other","Static decision for all byte strings: no panic/over-read in Decode/unescape/Header.decode (E1); every successful header decode computes each field as the standard prescribes for the version/fragment bits the path admits, needs the full header, every error return is justified by a short input; every successful Decode entails both delimiters, a zero XOR over the whole unescaped payload and len = header + declared body + 1 with Body/VerifyCode that window; header decoder history-independent. Not decided: completeness of unescape (all well-formed frames accepted) and escape-pair content rules.","abstract interpretation over go/ssa + symbolic layout extraction compared with spec/jt808_header.json","§4 C02"),
 "C03":("other","Static decision of three clauses for every decoder entry point (34 body parsers, 5 extension parsers, JTMessage.Decode, Packet.Decode) over all inputs, dialects, versions and receiver histories: (A) every index/slice/conversion is proven in range against len (never cap) by abstract interpretation, (B) follows from A, (C) no receiver field written by a decoder keeps or depends on a value from an earlier parse on any successful path. String() totality and termination are not decided.","abstract interpretation over go/ssa (linear-constraint domain, FM entailment, inlining) + receiver taint dataflow","§4 C03"),
 "C05":("other","Static decision for every decoded header (any package number and total) and any parser state: the slot index and the concatenation loop are in range (E1), the timestamp record dereferenced after a slot store exists (paired-map lemma checked structurally, then used by E1), a rejected package number leaves no side effect, the message returned as complete carries a freshly concatenated body equal to its raw data and the completion flag; plus the reader role from the constructor's state. Exact delivery over arrival orders/duplicates/interleavings is not decided; aliasing of stored bodies is C09's clause.","abstract interpretation over go/ssa + structural paired-map lemma + CFG purity check of the rejection path","§4 C05"),
 "C10":("other","Panic freedom of everything a TCP client can drive, for all byte streams and Read results: both servers' per-connection roles are interpreted abstractly from the state their constructors establish (default data handler, stream handlers and file event explored through dynamic dispatch, first loop iterations peeled), callees in other packages / goroutine bodies / targets of unresolved dynamic calls are analysed as entries with arbitrary arguments until the set is closed, together with all decoder entry points; obligations: bounds, nil dereference, explicit panics, process exits, type assertions; plus the shape of both accept loops. Channel-close panics are C13's subject; liveness under load is not decided.","abstract interpretation over go/ssa (constructor-to-role sequences, modular entries, loop peeling) + CFG shape rule for accept loops","§4 C10"),
 "C17":("proof","All obligations discharged for all inputs: Packet.Decode is interpreted abstractly once; for every return state and every data type 0..15 the path admits, each header field, the body window and the remainder equal the table written from JT/T 1078 table 19; error returns are justified by the length/marker conditions; plus E1 bounds and E2 history independence.","abstract interpretation over go/ssa + symbolic layout extraction compared with spec/jt1078.json","§4 C17"),
}
NA={}
checks=[]
for pid in props:
    if pid in CHECKS:
        lvl,text,tech,ref=CHECKS[pid]
        checks.append({"property_id":pid,"quick_cmd":f"./run.sh {pid} quick","thorough_cmd":f"./run.sh {pid} thorough","evidence_file":f"evidence/{pid}.json",
          "replay_cmd_template":"cat {path}","engine":"jtverif",
          "level_claimed":{"category":lvl,"text":text,"design_ref":"DESIGN.md "+ref},
          "level_note":"assumes: "+TB,"technique":tech})
m={"version":1,"setup_cmd":"./setup.sh",
 "hooks":{"guard":"verif","enable":"none needed: static analysis reads the source; -tags verif is only an extra build configuration in the thorough tier","baseline_off_cmd":"for m in shared protocol service attachment terminal; do (cd /repo/$m && go test -vet=off -count=1 ./...) || exit 1; done","source_commits":[],"add_only":True},
 "engines":[{"name":"jtverif","path":"checker/","serves_properties":sorted(CHECKS),"kind_free_text":"static analyser over go/types + go/ssa: E1 abstract interpretation (linear constraints, Fourier-Motzkin entailment, inlining, Houdini loop invariants), E2 receiver-taint history independence, E3 symbolic layout extraction vs spec tables"}],
 "checks":checks,
 "notes":"static analysis only; every check loads /repo's working tree (all five modules through one harness module with replace directives), never executes repository code; see DESIGN.md",
 "not_applicable":[{"property_id":p,"reason":NA.get(p,"check under construction in this round (engines E1-E3 exist; registration pending)")} for p in props if p not in CHECKS]}
json.dump(m,open('/verif/MANIFEST.json','w'),indent=1,ensure_ascii=False)
print("checks:",len(checks),"n/a:",len(m['not_applicable']))
