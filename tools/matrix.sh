#!/bin/bash
# usage: tools/matrix.sh [mutant ids…]   (default: every directory of /verif/seeded and /tmp/mut)
# For every seeded change: scratch worktree of /repo + patch, run every registered check against it
# (the checker's --repo flag; /repo itself is not touched), record which checks report a violation.
export GOFLAGS=-mod=mod GOPROXY=off GOSUMDB=off GOTOOLCHAIN=local GOWORK=off
cd /verif || exit 2
CHECKS=$(python3 -c "import json;print(' '.join(c['property_id'] for c in json.load(open('/verif/MANIFEST.json'))['checks']))")
OUT=${MATRIX_OUT:-/verif/seeded/matrix.tsv}
mkdir -p /tmp/matrix
ids="$@"
if [ -z "$ids" ]; then
  ids=$(ls -d /verif/seeded/C??-? 2>/dev/null | xargs -n1 basename)
fi
for id in $ids; do
  P=${id%-*}; N=${id#*-}
  SRC=/verif/seeded/$id; [ -d "$SRC" ] || SRC=/tmp/mut/$P/mutants/$N
  PATCH=$SRC/patch.rebased.diff; [ -f "$PATCH" ] || PATCH=$SRC/patch.diff
  W=/tmp/matrix/wt-$id; V=/tmp/matrix/verif-$id
  rm -rf "$W" "$V"; mkdir -p "$V"
  cp -r /verif/spec "$V/spec"; cp /verif/known_findings.json "$V/"
  git -C /repo worktree add -q --detach "$W" HEAD || continue
  if ! git -C "$W" apply "$PATCH"; then echo -e "$id\tPATCH-DOES-NOT-APPLY" >> "$OUT"; git -C /repo worktree remove --force "$W"; continue; fi
  fired=""
  for c in $CHECKS; do
    ( timeout 900 ${JTVERIF_BIN:-/verif/bin/jtverif} check $c --repo "$W" --verif "$V" > "$V/$c.log" 2>&1; echo $? > "$V/$c.rc" ) &
    while [ $(jobs -r | wc -l) -ge 6 ]; do sleep 0.5; done
  done
  wait
  for c in $CHECKS; do
    rc=$(cat "$V/$c.rc")
    if [ "$rc" != "0" ]; then
      rules=$(grep -E "^  (VIOLATED|UNDECIDED)" "$V/$c.log" | awk '{print $2}' | sort -u | tr '\n' ',' | sed 's/,$//')
      [ -z "$rules" ] && rules="rc=$rc"
      fired="$fired $c[$rules]"
    fi
  done
  echo -e "$id\t${fired:- (none)}" | tee -a "$OUT"
  git -C /repo worktree remove --force "$W"; rm -rf "$W" "$V"
done
